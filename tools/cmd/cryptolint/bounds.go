package main

import (
	"go/token"
	"go/types"
	"math"
	"strconv"
	"strings"

	"golang.org/x/tools/go/ssa"
)

const inf = math.MaxInt64 / 4

// intBound returns an interval [lo,hi] for the integer value v at instruction `at`, derived from
// constants, arithmetic and the dominating facts. ok=false means nothing is known.
func (w *World) intBound(v ssa.Value, at ssa.Instruction) (lo, hi int64, ok bool) {
	return w.intBoundD(v, locOf(at), 0)
}

func (w *World) intBoundD(v ssa.Value, at ssa.Instruction, d int) (lo, hi int64, ok bool) {
	if d > 12 {
		return 0, 0, false
	}
	v = stripConvKeepNarrow(v)
	if c, isC := v.(*ssa.Const); isC {
		if n, isI := constInt64(c.Value); isI {
			return n, n, true
		}
		return 0, 0, false
	}
	lo, hi = -inf, inf
	known := false
	// type range for unsigned/small types
	if b, isB := v.Type().Underlying().(*types.Basic); isB {
		switch b.Kind() {
		case types.Uint8:
			lo, hi, known = 0, 255, true
		case types.Uint16:
			lo, hi, known = 0, 65535, true
		case types.Uint32:
			lo, hi, known = 0, math.MaxUint32, true
		case types.Uint, types.Uint64, types.Uintptr:
			lo, known = 0, true
		}
	}
	switch x := v.(type) {
	case *ssa.Parameter:
		if iv, okE := w.paramEnv[x]; okE {
			lo, hi, known = max64(lo, iv[0]), min64(hi, iv[1]), true
		} else if pf := x.Parent(); pf != nil && pf.Parent() != nil && d < 6 {
			// parameter of a function literal: what its call sites (all in the enclosing function) pass
			idx := paramIndex(pf, x)
			cs := w.callersOfCached(pf)
			if idx >= 0 && len(cs) > 0 {
				var jl, jh int64 = inf, -inf
				all := true
				for _, c := range cs {
					if idx >= len(c.Common().Args) || c.Parent() != pf.Parent() {
						all = false
						break
					}
					l, h, k := w.intBoundD(c.Common().Args[idx], c.(ssa.Instruction), d+3)
					if !k {
						all = false
						break
					}
					jl, jh = min64(jl, l), max64(jh, h)
				}
				if all {
					lo, hi, known = max64(lo, jl), min64(hi, jh), true
				}
			}
		}
	case *ssa.UnOp:
		if x.Op == token.MUL {
			switch a := x.X.(type) {
			case *ssa.Global:
				if l, h, k := w.globalInt(a); k {
					lo, hi, known = max64(lo, l), min64(hi, h), true
				}
			case *ssa.FieldAddr:
				if l, h, k := w.fieldIntInvariant(addrField(a), d); k {
					lo, hi, known = max64(lo, l), min64(hi, h), true
				}
			}
		}
	case *ssa.Call:
		if b, isB := x.Call.Value.(*ssa.Builtin); isB && (b.Name() == "len" || b.Name() == "cap") {
			l, h, k := w.lenBoundD(x.Call.Args[0], at, d+1)
			if k {
				lo, hi, known = max64(lo, l), min64(hi, h), true
			} else {
				lo, known = max64(lo, 0), true
			}
		} else if _, isB := x.Call.Value.(*ssa.Builtin); !isB {
			if l1, h1, k1 := w.resultIntBound(x, 0, d); k1 {
				lo, hi, known = max64(lo, l1), min64(hi, h1), true
			}
		} else if b, isB := x.Call.Value.(*ssa.Builtin); isB && b.Name() == "min" && len(x.Call.Args) == 2 {
			l1, h1, k1 := w.intBoundD(x.Call.Args[0], at, d+1)
			l2, h2, k2 := w.intBoundD(x.Call.Args[1], at, d+1)
			if k1 && k2 {
				lo, hi, known = max64(lo, min64(l1, l2)), min64(hi, min64(h1, h2)), true
			} else if k1 {
				hi, known = min64(hi, h1), true
			} else if k2 {
				hi, known = min64(hi, h2), true
			}
		}
	case *ssa.BinOp:
		l1, h1, k1 := w.intBoundD(x.X, at, d+1)
		l2, h2, k2 := w.intBoundD(x.Y, at, d+1)
		if k1 && k2 {
			switch x.Op {
			case token.ADD:
				lo, hi, known = max64(lo, sat(l1+l2)), min64(hi, sat(h1+h2)), true
			case token.SUB:
				lo, hi, known = max64(lo, sat(l1-h2)), min64(hi, sat(h1-l2)), true
			case token.MUL:
				if l1 >= 0 && l2 >= 0 {
					lo, hi, known = max64(lo, satMul(l1, l2)), min64(hi, satMul(h1, h2)), true
				}
			case token.QUO:
				if l1 >= 0 && l2 > 0 {
					lo, hi, known = max64(lo, l1/h2), min64(hi, h1/l2), true
				}
			case token.REM:
				if l2 > 0 && l1 >= 0 {
					lo, hi, known = max64(lo, 0), min64(hi, h2-1), true
				}
			case token.SHR:
				if l1 >= 0 && l2 >= 0 && l2 < 63 {
					lo, hi, known = max64(lo, 0), min64(hi, h1>>uint(l2)), true
				}
			case token.AND:
				if l2 >= 0 {
					lo, hi, known = max64(lo, 0), min64(hi, h2), true
				} else if l1 >= 0 {
					lo, hi, known = max64(lo, 0), min64(hi, h1), true
				}
			}
		} else if x.Op == token.REM && k2 && l2 > 0 {
			if known && lo >= 0 {
				hi = min64(hi, h2-1)
			}
		} else if x.Op == token.AND && k2 && l2 >= 0 {
			lo, hi, known = max64(lo, 0), min64(hi, h2), true
		}
	case *ssa.Extract:
		// k-th result of a module function: the join over its returns of what is returned there (whatever the arguments)
		if c, isCall := x.Tuple.(*ssa.Call); isCall {
			if l1, h1, k1 := w.resultIntBound(c, x.Index, d); k1 {
				lo, hi, known = max64(lo, l1), min64(hi, h1), true
			}
		}
	case *ssa.Convert:
		// narrowing conversion: result range is the type's; widened values keep the operand's range
		l1, h1, k1 := w.intBoundD(x.X, at, d+1)
		if k1 && l1 >= lo && h1 <= hi {
			lo, hi, known = l1, h1, true
		}
	case *ssa.Phi:
		if bnd, isLoop := countedLoop(x); isLoop {
			_, bh, bk := w.intBoundD(bnd, x.Block().Instrs[0], d+1)
			lo, known = max64(lo, 0), true
			if bk {
				hi = min64(hi, bh-1)
			}
			break
		}
		// a counter that starts at a constant and is only ever incremented by one, the increment being guarded by a
		// comparison of the counter with a bound (`for i < 8 && …  { i++ }`, or go/ssa's range loop `i = φ(-1, i+1)` with
		// `i+1 < len`): init <= φ, and φ <= bound when the step is taken only under φ < bound (so φ+1 <= bound)
		if len(x.Edges) == 2 {
			for ii := 0; ii < 2; ii++ {
				c0, isC := constOf(x.Edges[ii])
				step, isB := x.Edges[1-ii].(*ssa.BinOp)
				if !isC || !isB || step.Op != token.ADD || step.X != ssa.Value(x) {
					continue
				}
				one, isOne := constOf(step.Y)
				if !isOne {
					continue
				}
				if n1, _ := constInt64(one.Value); n1 != 1 {
					continue
				}
				n0, okc := constInt64(c0.Value)
				if !okc {
					continue
				}
				lo, known = max64(lo, n0), true
				// upper bound from the guard under which the loop continues: facts at the step, or — for the range
				// form, where the step is computed before the test — facts where the incremented value is used
				if _, h, k := w.factBound(render(x), step, d+1); k && h < inf {
					hi = min64(hi, h+1)
				}
				break
			}
			if known {
				break
			}
		}
		// loop counters and merged values: join of the edges when all are known (no widening: give up on cycles)
		var jl, jh int64 = inf, -inf
		all := true
		for _, e := range x.Edges {
			if e == ssa.Value(x) {
				continue
			}
			if dependsOn(e, x, 0) {
				all = false
				break
			}
			l, h, k := w.intBoundD(e, at, d+1)
			if !k {
				all = false
				break
			}
			jl, jh = min64(jl, l), max64(jh, h)
		}
		if all && jl <= jh {
			lo, hi, known = max64(lo, jl), min64(hi, jh), true
		}
	}
	// refine with dominating facts on the rendered expression
	s := render(v)
	l, h, k := w.factBound(s, at, d)
	if k {
		lo, hi, known = max64(lo, l), min64(hi, h), true
	}
	return lo, hi, known
}

func dependsOn(v ssa.Value, target ssa.Value, d int) bool {
	if d > 6 {
		return true
	}
	if v == target {
		return true
	}
	ins, ok := v.(ssa.Instruction)
	if !ok {
		return false
	}
	if _, isPhi := v.(*ssa.Phi); isPhi && d > 0 {
		return true // nested loop-carried value: be conservative
	}
	for _, op := range ins.Operands(nil) {
		if *op != nil && dependsOn(*op, target, d+1) {
			return true
		}
	}
	return false
}

// stripConvKeepNarrow strips only representation-preserving wrappers.
func stripConvKeepNarrow(v ssa.Value) ssa.Value {
	for {
		switch x := v.(type) {
		case *ssa.ChangeType:
			v = x.X
		case *ssa.MakeInterface:
			v = x.X
		default:
			return v
		}
	}
}

// factBound derives bounds for the expression string from facts "expr op K" / "expr op other".
func (w *World) factBound(expr string, at ssa.Instruction, d int) (lo, hi int64, ok bool) {
	lo, hi = -inf, inf
	facts := w.factsAt(at)
	facts = append(facts, w.expandBoolHelpers(facts)...)
	for _, f := range facts {
		parts := splitCmp(f.Expr)
		if parts == nil {
			continue
		}
		lhs, op, rhs := parts[0], parts[1], parts[2]
		if f.dCond != nil {
			// fact derived from a boolean helper: operands are values of the helper's body
			var other ssa.Value
			if lhs != expr && rhs != expr {
				continue
			}
			// orientation is taken from the helper's own comparison when its operands can be told apart
			// by rendering (the fact string may have been normalised), else from the string position
			flipOp := map[string]string{"<": ">", ">": "<", "<=": ">=", ">=": "<=", "==": "==", "!=": "!="}
			rx, ry := render(f.dCond.X), render(f.dCond.Y)
			switch {
			case rx == expr && ry != expr:
				other, op = f.dCond.Y, f.dCond.Op.String()
			case ry == expr && rx != expr:
				other, op = f.dCond.X, flipOp[f.dCond.Op.String()]
			case lhs == expr:
				other = f.dCond.Y
			default:
				other, op = f.dCond.X, flipOp[op]
			}
			if l2, h2, k2 := w.intBoundD(other, f.dAt, d+2); k2 {
				switch op {
				case "==":
					lo, hi, ok = max64(lo, l2), min64(hi, h2), true
				case "<":
					hi, ok = min64(hi, h2-1), true
				case "<=":
					hi, ok = min64(hi, h2), true
				case ">":
					lo, ok = max64(lo, l2+1), true
				case ">=":
					lo, ok = max64(lo, l2), true
				}
			}
			continue
		}
		var k int64
		var isK bool
		flip := false
		if lhs == expr {
			k, isK = parseInt(rhs)
			if !isK && f.If != nil {
				// compare with another bounded expression
				if bo, okb := stripConv(f.If.Cond).(*ssa.BinOp); okb && d < 6 {
					var other ssa.Value
					if render(bo.X) == expr {
						other = bo.Y
					} else if render(bo.Y) == expr {
						other = bo.X
					}
					if other != nil && !dependsOnExpr(other, expr) {
						l2, h2, k2 := w.intBoundD(other, f.If, d+2)
						if k2 {
							switch op {
							case "==":
								lo, hi, ok = max64(lo, l2), min64(hi, h2), true
							case "<":
								hi, ok = min64(hi, h2-1), true
							case "<=":
								hi, ok = min64(hi, h2), true
							case ">":
								lo, ok = max64(lo, l2+1), true
							case ">=":
								lo, ok = max64(lo, l2), true
							}
						}
					}
				}
				continue
			}
		} else if rhs == expr {
			k, isK = parseInt(lhs)
			flip = true
			if !isK && f.If != nil {
				if bo, okb := stripConv(f.If.Cond).(*ssa.BinOp); okb && d < 6 {
					var other ssa.Value
					if render(bo.X) == expr {
						other = bo.Y
					} else if render(bo.Y) == expr {
						other = bo.X
					}
					if other != nil && !dependsOnExpr(other, expr) {
						l2, h2, k2 := w.intBoundD(other, f.If, d+2)
						if k2 {
							switch op { // other op expr
							case "==":
								lo, hi, ok = max64(lo, l2), min64(hi, h2), true
							case "<": // other < expr
								lo, ok = max64(lo, l2+1), true
							case "<=":
								lo, ok = max64(lo, l2), true
							case ">":
								hi, ok = min64(hi, h2-1), true
							case ">=":
								hi, ok = min64(hi, h2), true
							}
						}
					}
				}
				continue
			}
		} else {
			continue
		}
		if !isK {
			continue
		}
		if flip {
			op = map[string]string{"<": ">", ">": "<", "<=": ">=", ">=": "<=", "==": "==", "!=": "!="}[op]
		}
		switch op {
		case "==":
			lo, hi, ok = max64(lo, k), min64(hi, k), true
		case "<":
			hi, ok = min64(hi, k-1), true
		case "<=":
			hi, ok = min64(hi, k), true
		case ">":
			lo, ok = max64(lo, k+1), true
		case ">=":
			lo, ok = max64(lo, k), true
		case "!=":
			if k == 0 && strings.HasPrefix(expr, "len(") {
				lo, ok = max64(lo, 1), true
			} else if k == lo {
				lo, ok = lo+1, true
			}
		}
	}
	return
}

func dependsOnExpr(v ssa.Value, expr string) bool {
	return strings.Contains(render(v), expr)
}

func splitCmp(s string) []string {
	for _, op := range []string{" == ", " != ", " <= ", " >= ", " < ", " > "} {
		// split at the last top-level occurrence (rhs is usually short)
		depth := 0
		for i := 0; i+len(op) <= len(s); i++ {
			switch s[i] {
			case '(', '[', '{':
				depth++
			case ')', ']', '}':
				depth--
			}
			if depth == 0 && s[i:i+len(op)] == op {
				return []string{s[:i], strings.TrimSpace(op), s[i+len(op):]}
			}
		}
	}
	return nil
}

func parseInt(s string) (int64, bool) {
	n, err := strconv.ParseInt(s, 10, 64)
	return n, err == nil
}

func max64(a, b int64) int64 {
	if a > b {
		return a
	}
	return b
}
func min64(a, b int64) int64 {
	if a < b {
		return a
	}
	return b
}
func sat(a int64) int64 {
	if a > inf {
		return inf
	}
	if a < -inf {
		return -inf
	}
	return a
}
func satMul(a, b int64) int64 {
	if a == 0 || b == 0 {
		return 0
	}
	if a > inf/b {
		return inf
	}
	return a * b
}

// lenBound returns bounds on len(v) for a slice/array/string value at `at`.
func (w *World) lenBound(v ssa.Value, at ssa.Instruction) (lo, hi int64, ok bool) {
	return w.lenBoundD(v, locOf(at), 0)
}

func (w *World) lenBoundD(v ssa.Value, at ssa.Instruction, d int) (lo, hi int64, ok bool) {
	if d > 12 {
		return 0, inf, false
	}
	v = stripConv(v)
	lo, hi = 0, inf
	// arrays and pointers to arrays
	if arr, isArr := deref(v.Type()).Underlying().(*types.Array); isArr {
		return arr.Len(), arr.Len(), true
	}
	switch x := v.(type) {
	case *ssa.Parameter:
		// slice parameter of a callee being summarised for one call site: the argument's length
		if iv, okE := w.lenParamEnv[x]; okE {
			lo, hi, ok = iv[0], iv[1], true
		} else if isNewHelper(x.Parent()) && d < 8 {
			// parameter of a helper the rules do not know: at least what every call site passes
			idx := paramIndex(x.Parent(), x)
			cs := w.callersOfCached(x.Parent())
			if idx >= 0 && len(cs) > 0 {
				var jl, jh int64 = inf, -inf
				all := true
				for _, c := range cs {
					if idx >= len(c.Common().Args) {
						all = false
						break
					}
					l, h, k := w.lenBoundD(c.Common().Args[idx], c.(ssa.Instruction), d+3)
					if !k {
						all = false
						break
					}
					jl, jh = min64(jl, l), max64(jh, h)
				}
				if all {
					lo, hi, ok = jl, jh, true
				}
			}
		}
	case *ssa.Const:
		if s, isS := constString(x.Value); isS {
			return int64(len(s)), int64(len(s)), true
		}
		if x.Value == nil {
			return 0, 0, true
		}
	case *ssa.MakeSlice:
		l, h, k := w.intBoundD(x.Len, x, d+1)
		if k {
			lo, hi, ok = max64(0, l), h, true
		}
		// facts at the use site may say more about the length expression
		l2, h2, k2 := w.intBoundD(x.Len, at, d+1)
		if k2 {
			lo, hi, ok = max64(lo, l2), min64(hi, h2), true
		}
		return lo, hi, ok
	case *ssa.Slice:
		bl, bh, bk := w.lenBoundD(x.X, at, d+1)
		var ll, lh int64 = 0, 0
		lk := true
		if x.Low != nil {
			ll, lh, lk = w.intBoundD(x.Low, at, d+1)
		}
		if x.High != nil {
			hl, hh, hk := w.intBoundD(x.High, at, d+1)
			if hk && lk {
				return max64(0, hl-lh), max64(0, hh-ll), true
			}
			if l, h, k := w.factBound("len("+render(v)+")", at, d); k {
				return max64(0, l), h, true
			}
			return 0, inf, false
		}
		if bk && lk {
			lo, hi, ok = max64(0, bl-lh), max64(0, bh-ll), true
		}
		if l, h, k := w.factBound("len("+render(v)+")", at, d); k {
			lo, hi, ok = max64(lo, l), min64(hi, h), true
		}
		return lo, hi, ok
	case *ssa.Phi:
		// flat buffer idiom or merge
		return w.phiLenBound(x, at, d)
	case *ssa.Call:
		if x.Call.IsInvoke() && x.Call.Method.Name() == "ComputeHash" {
			// assumption A-Hasher: ComputeHash returns Size() bytes
			hv := render(x.Call.Value)
			for _, f := range w.factsAt(at) {
				if strings.HasPrefix(f.Expr, hv+".Size() == ") {
					if k, isK := parseInt(strings.TrimPrefix(f.Expr, hv+".Size() == ")); isK {
						return k, k, true
					}
				}
			}
			if k, isK := w.globalHasherSize(x.Call.Value, 0); isK {
				return k, k, true
			}
		}
		if b, isB := x.Call.Value.(*ssa.Builtin); isB && b.Name() == "append" {
			bl, bh, bk := w.lenBoundD(x.Call.Args[0], x, d+1)
			cl, ch, ck := w.lenBoundD(x.Call.Args[1], x, d+1)
			if bk && ck {
				return sat(bl + cl), sat(bh + ch), true
			}
			if ck {
				return cl, inf, true
			}
			if bk {
				return bl, inf, true
			}
		}
		// callee summaries: functions returning a make of known size on every non-nil return
		if callee := x.Call.StaticCallee(); callee != nil && inModule(callee) && callee.Blocks != nil && d < 4 {
			if l, h, k := w.resultLenSummary(callee, 0, &x.Call, at, d); k {
				lo, hi, ok = l, h, true
			}
		}
	case *ssa.Extract:
		if c, isC := x.Tuple.(*ssa.Call); isC {
			if callee := c.Call.StaticCallee(); callee != nil && inModule(callee) && callee.Blocks != nil && d < 4 {
				if l, h, k := w.resultLenSummary(callee, x.Index, &c.Call, at, d); k {
					lo, hi, ok = l, h, true
				}
			}
		}
	case *ssa.UnOp:
		if x.Op == token.MUL {
			// load of a global with a single initialising store of known length
			if g, isG := x.X.(*ssa.Global); isG {
				if l, h, k := w.globalLen(g, d); k {
					lo, hi, ok = l, h, true
				}
			}
			if fa, isFA := x.X.(*ssa.FieldAddr); isFA {
				if l, h, k := w.fieldLenInvariant(addrField(fa), d); k {
					lo, hi, ok = l, h, true
				}
			}
		}
	}
	if c, isC := v.(*ssa.Call); isC && !ok {
		if callee := c.Call.StaticCallee(); callee != nil && strings.HasPrefix(callee.String(), "crypto/hkdf.Key") {
			_ = callee
		}
	}
	if ex, isEx := v.(*ssa.Extract); isEx && ex.Index == 0 {
		if c, isC := ex.Tuple.(*ssa.Call); isC {
			if callee := c.Call.StaticCallee(); callee != nil && strings.HasPrefix(callee.String(), "crypto/hkdf.Key") && len(c.Call.Args) == 5 {
				// crypto/hkdf.Key returns exactly keyLength bytes on its error-free return
				if l, h, k := w.intBoundD(c.Call.Args[4], c, d+1); k {
					lo, hi, ok = max64(0, l), h, true
				}
			}
		}
	}
	l, h, k := w.factBound("len("+render(v)+")", at, d)
	if k {
		lo, hi, ok = max64(lo, l), min64(hi, h), true
	}
	return lo, hi, ok
}

// phiLenBound recognises   buf := make(T, 0, …); for … { buf = append(buf, chunk…) }
// and plain merges.
func (w *World) phiLenBound(p *ssa.Phi, at ssa.Instruction, d int) (lo, hi int64, ok bool) {
	var jl, jh int64 = inf, -inf
	grows := false
	var minChunk int64 = inf
	for _, e := range p.Edges {
		e = stripConv(e)
		if c, isC := e.(*ssa.Call); isC {
			if b, isB := c.Call.Value.(*ssa.Builtin); isB && b.Name() == "append" && dependsOn(c.Call.Args[0], p, 0) {
				grows = true
				cl, _, ck := w.lenBoundD(c.Call.Args[1], c, d+1)
				if !ck {
					cl = 0
				}
				minChunk = min64(minChunk, cl)
				continue
			}
		}
		if dependsOn(e, p, 0) {
			return 0, inf, false
		}
		l, h, k := w.lenBoundD(e, at, d+1)
		if !k {
			return 0, inf, false
		}
		jl, jh = min64(jl, l), max64(jh, h)
	}
	if !grows {
		if jl <= jh {
			return jl, jh, true
		}
		return 0, inf, false
	}
	// growing buffer: at least the initial length; at the loop exit at least one iteration happened
	// when the loop ranges over a collection known to be non-empty and every iteration appends.
	lo, hi = jl, inf
	if w.loopRunsAtLeastOnce(p, at) && w.everyIterationAppends(p) {
		lo = sat(jl + minChunk)
	}
	return lo, hi, true
}

// loopRunsAtLeastOnce: p is a header phi of a loop `for i < N`/range over X, `at` is after the loop,
// and N / len(X) >= 1 holds at the loop entry.
func (w *World) loopRunsAtLeastOnce(p *ssa.Phi, at ssa.Instruction) bool {
	hdr := p.Block()
	if len(hdr.Instrs) == 0 {
		return false
	}
	ifi, ok := hdr.Instrs[len(hdr.Instrs)-1].(*ssa.If)
	if !ok {
		// map range loops: header ends with If on next(iter)#0
		return false
	}
	// `at` must be outside the loop body (dominated by the exit edge)
	exit := hdr.Succs[1]
	if !exit.Dominates(at.Block()) {
		return false
	}
	cond, ok := stripConv(ifi.Cond).(*ssa.BinOp)
	if ok && cond.Op == token.LSS {
		// counter < bound, counter starts at 0 (rangeindex: -1 then +1)
		bl, _, bk := w.intBoundD(cond.Y, ifi, 1)
		if bk && bl >= 1 && w.counterStartsAtZero(cond.X) {
			return true
		}
		// the bound is the length of a parameter (immutable): what is known about it after the loop also held before it
		if c, isC := stripConv(cond.Y).(*ssa.Call); isC {
			if b, isB := c.Call.Value.(*ssa.Builtin); isB && b.Name() == "len" {
				if _, isP := stripConv(c.Call.Args[0]).(*ssa.Parameter); isP {
					if l2, _, k2 := w.intBoundD(cond.Y, at, 1); k2 && l2 >= 1 && w.counterStartsAtZero(cond.X) {
						return true
					}
				}
			}
		}
		return false
	}
	// range over map: `next(range(m))#0`
	if ex, isEx := stripConv(ifi.Cond).(*ssa.Extract); isEx {
		if nx, isN := ex.Tuple.(*ssa.Next); isN {
			if rg, isR := nx.Iter.(*ssa.Range); isR {
				l, _, k := w.mapLenBound(rg.X, ifi)
				return k && l >= 1
			}
		}
	}
	return false
}

func (w *World) counterStartsAtZero(v ssa.Value) bool {
	v = stripConv(v)
	// rangeindex idiom: t = phi(-1, t') ; i = t + 1
	if bo, ok := v.(*ssa.BinOp); ok && bo.Op == token.ADD {
		if ph, ok := bo.X.(*ssa.Phi); ok {
			if c, ok := constOf(bo.Y); ok {
				if n, _ := constInt64(c.Value); n == 1 {
					for _, e := range ph.Edges {
						if ce, ok := constOf(e); ok {
							if m, _ := constInt64(ce.Value); m == -1 {
								return true
							}
						}
					}
				}
			}
		}
	}
	if ph, ok := v.(*ssa.Phi); ok {
		for _, e := range ph.Edges {
			if ce, ok := constOf(e); ok {
				if m, _ := constInt64(ce.Value); m == 0 {
					return true
				}
			}
		}
	}
	return false
}

// everyIterationAppends: every back edge into the header carries an append of the phi.
func (w *World) everyIterationAppends(p *ssa.Phi) bool {
	hdr := p.Block()
	for i, e := range p.Edges {
		pred := hdr.Preds[i]
		if !hdr.Dominates(pred) {
			continue // entry edge
		}
		c, ok := stripConv(e).(*ssa.Call)
		if !ok {
			return false
		}
		if b, ok := c.Call.Value.(*ssa.Builtin); !ok || b.Name() != "append" {
			return false
		}
	}
	return true
}

// mapLenBound: maps filled in a loop over a non-empty collection where every completed iteration inserts.
func (w *World) mapLenBound(m ssa.Value, at ssa.Instruction) (lo, hi int64, ok bool) {
	m = stripConv(m)
	lo, hi = 0, inf
	l, h, k := w.factBound("len("+render(m)+")", at, 0)
	if k {
		lo, hi, ok = max64(lo, l), min64(hi, h), true
	}
	if pr, isP := m.(*ssa.Parameter); isP && isNewHelper(pr.Parent()) {
		// map handed to a helper the rules do not know: at least as many entries as at every call site
		idx := paramIndex(pr.Parent(), pr)
		cs := w.callersOfCached(pr.Parent())
		if idx >= 0 && len(cs) > 0 {
			var jl int64 = inf
			all := true
			for _, c := range cs {
				if idx >= len(c.Common().Args) {
					all = false
					break
				}
				l, _, k := w.mapLenBound(c.Common().Args[idx], c.(ssa.Instruction))
				if !k {
					all = false
					break
				}
				jl = min64(jl, l)
			}
			if all {
				lo, ok = max64(lo, jl), true
			}
		}
		return
	}
	mk, isMk := m.(*ssa.MakeMap)
	if !isMk {
		return
	}
	// find MapUpdates on this map; if one sits in a loop that runs at least once and `at` is past the loop,
	// and every path through the loop body that reaches the latch performs the update, the map is non-empty.
	for _, ref := range *mk.Referrers() {
		mu, isMu := ref.(*ssa.MapUpdate)
		if !isMu {
			continue
		}
		hdr := loopHeaderOf(mu.Block())
		if hdr == nil {
			continue
		}
		ifi, isIf := hdr.Instrs[len(hdr.Instrs)-1].(*ssa.If)
		if !isIf || !hdr.Succs[1].Dominates(at.Block()) {
			continue
		}
		cond, isB := stripConv(ifi.Cond).(*ssa.BinOp)
		if !isB || cond.Op != token.LSS {
			continue
		}
		bl, _, bk := w.intBoundD(cond.Y, ifi, 1)
		if !(bk && bl >= 1 && w.counterStartsAtZero(cond.X)) {
			continue
		}
		// every back edge predecessor is dominated by the update's block
		all := true
		for _, pred := range hdr.Preds {
			if hdr.Dominates(pred) && !mu.Block().Dominates(pred) {
				all = false
			}
		}
		if all {
			lo, ok = max64(lo, 1), true
		}
	}
	return
}

func loopHeaderOf(b *ssa.BasicBlock) *ssa.BasicBlock {
	// innermost header: a dominator of b that has a predecessor it dominates and from which b can reach it
	for d := b; d != nil; d = d.Idom() {
		for _, p := range d.Preds {
			if d.Dominates(p) {
				// is b inside the loop (can reach p)?
				seen := map[*ssa.BasicBlock]bool{}
				st := []*ssa.BasicBlock{b}
				for len(st) > 0 {
					x := st[len(st)-1]
					st = st[:len(st)-1]
					if seen[x] {
						continue
					}
					seen[x] = true
					if x == p {
						return d
					}
					for _, s := range x.Succs {
						if s != d {
							st = append(st, s)
						}
					}
				}
			}
		}
	}
	return nil
}

// resultLenSummary: length of the idx-th result of a module function on its non-error returns,
// as an interval, when every such return yields a value of bounded length.
func (w *World) resultLenSummary(fn *ssa.Function, idx int, call *ssa.CallCommon, at ssa.Instruction, d int) (lo, hi int64, ok bool) {
	// bind the callee's integer parameters to the intervals of the actual arguments
	if w.paramEnv == nil {
		w.paramEnv = map[*ssa.Parameter][2]int64{}
	}
	var bound []*ssa.Parameter
	for i, p := range fn.Params {
		if i < len(call.Args) {
			if b, isB := p.Type().Underlying().(*types.Basic); isB && b.Info()&types.IsInteger != 0 {
				if l, h, k := w.intBoundD(call.Args[i], at, d+1); k {
					if _, exists := w.paramEnv[p]; !exists {
						w.paramEnv[p] = [2]int64{l, h}
						bound = append(bound, p)
					}
				}
			}
		}
	}
	if w.lenParamEnv == nil {
		w.lenParamEnv = map[*ssa.Parameter][2]int64{}
	}
	var lbound []*ssa.Parameter
	for i, p := range fn.Params {
		if i < len(call.Args) {
			switch p.Type().Underlying().(type) {
			case *types.Slice:
				if l, h, k := w.lenBoundD(call.Args[i], at, d+1); k {
					if _, exists := w.lenParamEnv[p]; !exists {
						w.lenParamEnv[p] = [2]int64{l, h}
						lbound = append(lbound, p)
					}
				}
			}
		}
	}
	defer func() {
		for _, p := range bound {
			delete(w.paramEnv, p)
		}
		for _, p := range lbound {
			delete(w.lenParamEnv, p)
		}
	}()
	var jl, jh int64 = inf, -inf
	n := 0
	for _, r := range returns(fn) {
		if idx >= len(r.Results) {
			return 0, inf, false
		}
		// skip returns that signal an error (last result non-nil error) – callers check err first
		last := r.Results[len(r.Results)-1]
		if isErrorType(last.Type()) && !isNilConst(last) && len(r.Results) > 1 {
			continue
		}
		v := r.Results[idx]
		if isNilConst(v) {
			continue
		}
		l, h, k := w.lenBoundD(v, r, d+2)
		if !k {
			return 0, inf, false
		}
		// substitute parameter-dependent bounds: only constant bounds survive
		jl, jh = min64(jl, l), max64(jh, h)
		n++
	}
	if n == 0 || jl > jh {
		return 0, inf, false
	}
	return jl, jh, true
}

// globalLen: a package-level slice with exactly one store (in an initialiser) of computable length.
func (w *World) globalLen(g *ssa.Global, d int) (lo, hi int64, ok bool) {
	var stores []*ssa.Store
	for _, fn := range w.moduleFuncs() {
		if isTestFile(w, fn.Pos()) {
			continue
		}
		instrsFlat(fn, func(ins ssa.Instruction) {
			if st, isSt := ins.(*ssa.Store); isSt && st.Addr == g {
				stores = append(stores, st)
			}
		})
	}
	if len(stores) != 1 {
		return 0, inf, false
	}
	return w.lenBoundD(stores[0].Val, stores[0], d+1)
}

// countedLoop recognises an induction variable i = φ(0, i+1) whose every value in the loop body
// satisfies 0 <= i < B, in both the classic form (header test i < B) and the rotated form that
// go/ssa emits for `for i := range n` (entry guarded by 0 < B, back edge by i+1 < B).
// It returns the SSA value of the bound B.
func countedLoop(ph *ssa.Phi) (bound ssa.Value, ok bool) {
	if len(ph.Edges) != 2 {
		return nil, false
	}
	blk := ph.Block()
	var initIdx, stepIdx = -1, -1
	for i, e := range ph.Edges {
		if c, isC := constOf(e); isC {
			if n, _ := constInt64(c.Value); n == 0 && c.Value != nil {
				initIdx = i
			}
		} else if bo, isB := e.(*ssa.BinOp); isB && bo.Op == token.ADD && bo.X == ssa.Value(ph) {
			if c, isC := constOf(bo.Y); isC {
				if n, _ := constInt64(c.Value); n == 1 {
					stepIdx = i
				}
			}
		}
	}
	if initIdx < 0 || stepIdx < 0 {
		return nil, false
	}
	step := ph.Edges[stepIdx]
	// classic: header block ends with If (φ < B), body on the true edge
	if ifi, isIf := blk.Instrs[len(blk.Instrs)-1].(*ssa.If); isIf {
		if bo, isB := stripConv(ifi.Cond).(*ssa.BinOp); isB && bo.Op == token.LSS && bo.X == ssa.Value(ph) {
			return bo.Y, true
		}
	}
	// rotated: both predecessors end with If whose true edge enters blk
	var b1, b2 ssa.Value
	for i, p := range blk.Preds {
		ifi, isIf := p.Instrs[len(p.Instrs)-1].(*ssa.If)
		if !isIf || p.Succs[0] != blk {
			return nil, false
		}
		bo, isB := stripConv(ifi.Cond).(*ssa.BinOp)
		if !isB || bo.Op != token.LSS {
			return nil, false
		}
		if i == initIdx {
			c, isC := constOf(bo.X)
			if !isC {
				return nil, false
			}
			if n, _ := constInt64(c.Value); n != 0 {
				return nil, false
			}
			b1 = bo.Y
		} else {
			if bo.X != step {
				return nil, false
			}
			b2 = bo.Y
		}
	}
	if b1 != nil && b2 != nil && (b1 == b2 || render(b1) == render(b2)) {
		return b1, true
	}
	return nil, false
}

// globalInt: a package-level integer variable that is assigned exactly once, in the package
// initialiser, from a constant expression (e.g. `var shareSize = frBytesLen`).
func (w *World) globalInt(g *ssa.Global) (lo, hi int64, ok bool) {
	var vals []ssa.Value
	bad := false
	for _, fn := range w.moduleFuncsAll() {
		instrsFlat(fn, func(ins ssa.Instruction) {
			if st, isSt := ins.(*ssa.Store); isSt && st.Addr == ssa.Value(g) {
				if fn.Name() != "init" {
					bad = true
				}
				vals = append(vals, st.Val)
			}
		})
	}
	if bad || len(vals) != 1 {
		return 0, 0, false
	}
	c, isC := constOf(vals[0])
	if !isC {
		return 0, 0, false
	}
	n, isI := constInt64(c.Value)
	return n, n, isI
}

// moduleFuncsAll includes the synthetic package initialisers.
func (w *World) moduleFuncsAll() []*ssa.Function {
	out := w.moduleFuncs()
	have := map[*ssa.Function]bool{}
	for _, f := range out {
		have[f] = true
	}
	for _, pp := range []string{rootPath, hashPath, randomPath} {
		if sp := w.SSA[pp]; sp != nil {
			if f := sp.Func("init"); f != nil && !have[f] {
				out = append(out, f)
			}
		}
	}
	return out
}

// fieldIntInvariant: interval that holds for an integer struct field because every store to it
// (anywhere in the module) stores a value within that interval at the store site.
func (w *World) fieldIntInvariant(fld *types.Var, d int) (lo, hi int64, ok bool) {
	if fld == nil {
		return 0, 0, false
	}
	d = 0 // invariants are context-free: fresh depth budget, recursion is cut by the cycle guard below
	if w.fieldInv == nil {
		w.fieldInv = map[*types.Var][3]int64{}
	}
	if iv, done := w.fieldInv[fld]; done {
		return iv[0], iv[1], iv[2] == 1
	}
	w.fieldInv[fld] = [3]int64{0, 0, 0} // cycle guard
	lo, hi = inf, -inf
	n := 0
	okAll := true
	for _, fn := range w.moduleFuncs() {
		if isTestFile(w, fn.Pos()) {
			continue
		}
		instrsFlat(fn, func(ins ssa.Instruction) {
			st, isSt := ins.(*ssa.Store)
			if !isSt {
				return
			}
			fa, isFA := st.Addr.(*ssa.FieldAddr)
			if !isFA || addrField(fa) != fld {
				return
			}
			n++
			l, h, k := w.intBoundD(st.Val, st, d+1)
			if !k {
				okAll = false
				return
			}
			lo, hi = min64(lo, l), max64(hi, h)
		})
	}
	if n == 0 || !okAll || lo > hi {
		return 0, 0, false
	}
	w.fieldInv[fld] = [3]int64{lo, hi, 1}
	return lo, hi, true
}

// fieldLenInvariant: bounds on the length of a slice-typed struct field while it is non-nil: every
// non-nil store to it stores a slice whose length lies in the interval.  (Whether the field is
// allocated at a use is a typestate question, decided by rule C09.R5.)
func (w *World) fieldLenInvariant(fld *types.Var, d int) (lo, hi int64, ok bool) {
	if fld == nil {
		return 0, inf, false
	}
	d = 0
	if _, isSl := fld.Type().Underlying().(*types.Slice); !isSl {
		return 0, inf, false
	}
	if w.fieldLenInv == nil {
		w.fieldLenInv = map[*types.Var][3]int64{}
	}
	if iv, done := w.fieldLenInv[fld]; done {
		return iv[0], iv[1], iv[2] == 1
	}
	w.fieldLenInv[fld] = [3]int64{0, inf, 0}
	lo, hi = inf, -inf
	n := 0
	okAll := true
	for _, fn := range w.moduleFuncs() {
		if isTestFile(w, fn.Pos()) {
			continue
		}
		instrsFlat(fn, func(ins ssa.Instruction) {
			st, isSt := ins.(*ssa.Store)
			if !isSt {
				return
			}
			fa, isFA := st.Addr.(*ssa.FieldAddr)
			if !isFA || addrField(fa) != fld {
				return
			}
			if isNilConst(st.Val) {
				w.nilStored[fld] = true
				return
			}
			n++
			l, h, k := w.lenBoundD(st.Val, st, d+1)
			if !k {
				okAll = false
				return
			}
			lo, hi = min64(lo, l), max64(hi, h)
		})
	}
	if n == 0 || !okAll || lo > hi {
		return 0, inf, false
	}
	w.fieldLenInv[fld] = [3]int64{lo, hi, 1}
	return lo, hi, true
}

// expandBoolHelpers: a fact `recv.helper(args) == true/false` about a module function whose body is a
// single `return a <op> b` yields the fact `a <op> b` (negated for false) with the helper's
// parameters replaced by the call's arguments.
func (w *World) expandBoolHelpers(fs []Fact) []Fact {
	var out []Fact
	for _, f := range fs {
		if len(f.calls) == 0 {
			continue
		}
		var pol bool
		switch {
		case strings.HasSuffix(f.Expr, " == true"):
			pol = true
		case strings.HasSuffix(f.Expr, " == false"):
			pol = false
		default:
			continue
		}
		for _, c := range f.calls {
			if render(c)+map[bool]string{true: " == true", false: " == false"}[pol] != f.Expr {
				continue
			}
			callee := c.Call.StaticCallee()
			if callee == nil || !inModule(callee) || len(callee.Blocks) != 1 {
				continue
			}
			rs := returns(callee)
			if len(rs) != 1 || len(rs[0].Results) != 1 {
				continue
			}
			bo, ok := rs[0].Results[0].(*ssa.BinOp)
			if !ok {
				continue
			}
			op := bo.Op
			if _, cmp := negOp[op]; !cmp {
				continue
			}
			if !pol {
				op = negOp[op]
			}
			x, y := render(bo.X), render(bo.Y)
			for i, p := range callee.Params {
				if i < len(c.Call.Args) {
					x = replaceIdent(x, p.Name(), render(c.Call.Args[i]))
					y = replaceIdent(y, p.Name(), render(c.Call.Args[i]))
				}
			}
			cp := *bo
			cp.Op = op
			out = append(out, Fact{Expr: x + " " + op.String() + " " + y, dCond: &cp, dAt: rs[0]})
		}
	}
	return out
}

func replaceIdent(s, name, with string) string {
	if name == with {
		return s
	}
	var b strings.Builder
	for i := 0; i < len(s); {
		if strings.HasPrefix(s[i:], name) {
			before := i == 0 || !isIdentChar(s[i-1])
			after := i+len(name) >= len(s) || !isIdentChar(s[i+len(name)])
			if before && after {
				b.WriteString(with)
				i += len(name)
				continue
			}
		}
		b.WriteByte(s[i])
		i++
	}
	return b.String()
}

func isIdentChar(c byte) bool {
	return c == '_' || c >= '0' && c <= '9' || c >= 'a' && c <= 'z' || c >= 'A' && c <= 'Z' || c >= 0x80
}

// globalHasherSize: output size of a package-level hasher that is initialised once, by a chain of
// module constructors ending in hash.NewKMAC_128(_, _, K) with constant K (KMAC returns make(K)).
func (w *World) globalHasherSize(v ssa.Value, d int) (int64, bool) {
	if d > 4 {
		return 0, false
	}
	v = stripConv(v)
	switch x := v.(type) {
	case *ssa.UnOp:
		if g, ok := x.X.(*ssa.Global); ok && x.Op == token.MUL && g.Pkg != nil && inModule(g.Pkg.Func("init")) {
			var val ssa.Value
			n := 0
			for _, f := range w.moduleFuncs() {
				instrsFlat(f, func(ins ssa.Instruction) {
					if st, ok := ins.(*ssa.Store); ok && st.Addr == ssa.Value(g) {
						n++
						val = st.Val
						if !(f.Name() == "init" || strings.HasPrefix(f.Name(), "init#")) {
							n += 10
						}
					}
				})
			}
			if n == 1 {
				return w.globalHasherSize(val, d+1)
			}
		}
	case *ssa.Extract:
		if c, ok := x.Tuple.(*ssa.Call); ok && x.Index == 0 {
			return w.globalHasherSize(c, d+1)
		}
	case *ssa.Call:
		f := x.Call.StaticCallee()
		if f == nil {
			return 0, false
		}
		if f.String() == hashPath+".NewKMAC_128" && len(x.Call.Args) == 3 {
			if l, h, k := w.intBoundD(x.Call.Args[2], x, d+1); k && l == h {
				return l, true
			}
			return 0, false
		}
		if inModule(f) && f.Blocks != nil {
			var out int64 = -1
			for _, r := range returnsD(f, 99) {
				if len(r.Results) == 0 {
					return 0, false
				}
				k, ok := w.globalHasherSize(r.Results[0], d+1)
				if !ok || out >= 0 && out != k {
					return 0, false
				}
				out = k
			}
			if out >= 0 {
				return out, true
			}
		}
	}
	return 0, false
}

// resultIntBound: interval of the idx-th result of a statically resolved module callee, joined over its returns and
// computed inside the callee without any knowledge about the arguments (so it holds at every call site).
func (w *World) resultIntBound(c *ssa.Call, idx int, d int) (lo, hi int64, ok bool) {
	callee := c.Call.StaticCallee()
	if callee == nil || !inModule(callee) || callee.Blocks == nil || d > 8 {
		return 0, 0, false
	}
	if w.resBusy == nil {
		w.resBusy = map[*ssa.Function]bool{}
	}
	if w.resBusy[callee] {
		return 0, 0, false
	}
	w.resBusy[callee] = true
	defer delete(w.resBusy, callee)
	lo, hi = inf, -inf
	n := 0
	for _, r := range returnsFlat(callee) {
		if idx >= len(r.Results) {
			return 0, 0, false
		}
		l, h, k := w.intBoundD(r.Results[idx], r, d+3)
		if !k {
			return 0, 0, false
		}
		n++
		lo, hi = min64(lo, l), max64(hi, h)
	}
	return lo, hi, n > 0 && lo <= hi
}
