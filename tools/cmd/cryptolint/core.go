package main

import (
	"encoding/json"
	"fmt"
	"go/token"
	"go/types"
	"os"
	"sort"
	"strings"

	"golang.org/x/tools/go/callgraph"
	"golang.org/x/tools/go/callgraph/cha"
	"golang.org/x/tools/go/callgraph/vta"
	"golang.org/x/tools/go/packages"
	"golang.org/x/tools/go/ssa"
	"golang.org/x/tools/go/ssa/ssautil"
)

// Obl is one obligation of one rule: a named construct in /repo's current source
// together with the verdict the rule reached for it.
type Obl struct {
	Rule   string   `json:"rule"`
	Key    string   `json:"key"`    // stable construct key: function + role (+ callee); never a line number
	Status string   `json:"status"` // ok | violation | undecided | info
	Where  string   `json:"where"`  // file:line of the construct in the analysed tree
	Detail string   `json:"detail"`
	Facts  []string `json:"facts,omitempty"`
}

// Out is what one run of the Go-side engines hands back to the driver.
type Out struct {
	Property    string         `json:"property"`
	Config      string         `json:"config"`
	Obligations []Obl          `json:"obligations"`
	Floors      map[string]int `json:"floors"` // rule -> minimum number of obligations confirmed by hand
	Stats       map[string]int `json:"stats"`
	Notes       []string       `json:"notes,omitempty"`
}

const (
	rootPath   = "github.com/onflow/crypto"
	hashPath   = "github.com/onflow/crypto/hash"
	randomPath = "github.com/onflow/crypto/random"
)

// World is the loaded, type-checked and SSA-built program for one build configuration.
type World struct {
	Cfg         string
	Fset        *token.FileSet
	Pkgs        []*packages.Package
	ByPath      map[string]*packages.Package
	Prog        *ssa.Program
	SSA         map[string]*ssa.Package
	cg          *callgraph.Graph
	cgKind      string
	out         *Out
	writes      map[*ssa.Function]map[*types.Var]bool // transitive field-write sets (lazy)
	paramEnv    map[*ssa.Parameter][2]int64
	lenParamEnv map[*ssa.Parameter][2]int64
	fieldInv    map[*types.Var][3]int64
	fieldLenInv map[*types.Var][3]int64
	nilStored   map[*types.Var]bool
	sumCache    map[string][]string
	fninfo      map[*ssa.Function]*FnInfo
	callerIdx   map[*ssa.Function][]ssa.CallInstruction
	errClsBusy  map[*ssa.Function]bool
	resBusy     map[*ssa.Function]bool
	embeddedNames map[string]bool
}

type LoadCfg struct {
	Name  string
	Dir   string
	Env   []string
	Flags []string
	Pats  []string
	Tests bool
}

func load(lc LoadCfg) (*World, error) {
	cfg := &packages.Config{
		Mode:       packages.LoadAllSyntax,
		Dir:        lc.Dir,
		Env:        append(os.Environ(), lc.Env...),
		BuildFlags: lc.Flags,
		Tests:      lc.Tests,
	}
	pats := lc.Pats
	if len(pats) == 0 {
		pats = []string{"./..."}
	}
	pkgs, err := packages.Load(cfg, pats...)
	if err != nil {
		return nil, err
	}
	if len(pkgs) == 0 {
		return nil, fmt.Errorf("no packages loaded for configuration %s", lc.Name)
	}
	w := &World{Cfg: lc.Name, Pkgs: pkgs, ByPath: map[string]*packages.Package{}, SSA: map[string]*ssa.Package{},
		fninfo: map[*ssa.Function]*FnInfo{}, nilStored: map[*types.Var]bool{}}
	var errs []string
	packages.Visit(pkgs, nil, func(p *packages.Package) {
		w.ByPath[p.PkgPath] = p
		if strings.HasPrefix(p.PkgPath, rootPath) {
			for _, e := range p.Errors {
				errs = append(errs, e.Error())
			}
		}
	})
	if len(errs) > 0 {
		return nil, fmt.Errorf("type errors in %s: %s", lc.Name, strings.Join(errs, "; "))
	}
	w.Fset = pkgs[0].Fset
	prog, spkgs := ssautil.AllPackages(pkgs, ssa.InstantiateGenerics)
	prog.Build()
	w.Prog = prog
	for i, p := range pkgs {
		if spkgs[i] != nil {
			w.SSA[p.PkgPath] = spkgs[i]
		}
	}
	for _, sp := range prog.AllPackages() {
		if _, ok := w.SSA[sp.Pkg.Path()]; !ok {
			w.SSA[sp.Pkg.Path()] = sp
		}
	}
	gWorld = w
	return w, nil
}

func (w *World) callgraph(kind string) *callgraph.Graph {
	if w.cg != nil && w.cgKind == kind {
		return w.cg
	}
	c := cha.CallGraph(w.Prog)
	if kind == "vta" {
		c = vta.CallGraph(ssautil.AllFunctions(w.Prog), c)
	}
	w.cg, w.cgKind = c, kind
	return c
}

func (w *World) pos(p token.Pos) string {
	if !p.IsValid() {
		return "?"
	}
	ps := w.Fset.Position(p)
	f := ps.Filename
	if i := strings.Index(f, "/repo/"); i >= 0 {
		f = f[i+6:]
	} else if strings.Contains(f, "/go-build/") || strings.Contains(f, "cgo") {
		// cgo-generated file: positions map back through //line directives normally
	}
	return fmt.Sprintf("%s:%d", f, ps.Line)
}

// ---- obligations ----

func (w *World) add(rule, key, status string, p token.Pos, detail string, facts ...string) {
	w.out.Obligations = append(w.out.Obligations, Obl{Rule: rule, Key: key, Status: status, Where: w.pos(p), Detail: detail, Facts: facts})
}
func (w *World) ok(rule, key string, p token.Pos, detail string, facts ...string) {
	w.add(rule, key, "ok", p, detail, facts...)
}
func (w *World) viol(rule, key string, p token.Pos, detail string, facts ...string) {
	w.add(rule, key, "violation", p, detail, facts...)
}
func (w *World) undecided(rule, key string, p token.Pos, detail string, facts ...string) {
	w.add(rule, key, "undecided", p, detail, facts...)
}
func (w *World) info(rule, key string, p token.Pos, detail string) {
	w.add(rule, key, "info", p, detail)
}
func (w *World) floor(rule string, n int) { w.out.Floors[rule] = n }
func (w *World) stat(k string, n int)     { w.out.Stats[k] += n }

// check adds ok when cond holds and a violation otherwise.
func (w *World) check(cond bool, rule, key string, p token.Pos, okDetail, badDetail string, facts ...string) bool {
	if cond {
		w.ok(rule, key, p, okDetail, facts...)
	} else {
		w.viol(rule, key, p, badDetail, facts...)
	}
	return cond
}

// ---- lookup helpers ----

func (w *World) pkg(path string) *ssa.Package { return w.SSA[path] }

// fn finds a package-level function or a method "(T).m" / "(*T).m" in the package.
// Returns nil (the caller reports an unresolved anchor) when absent.
func (w *World) fn(pkgPath, name string) *ssa.Function {
	sp := w.SSA[pkgPath]
	if sp == nil {
		return nil
	}
	if !strings.HasPrefix(name, "(") {
		return sp.Func(name)
	}
	// method
	close := strings.Index(name, ")")
	recv := name[1:close]
	m := name[close+2:]
	ptr := strings.HasPrefix(recv, "*")
	recv = strings.TrimPrefix(recv, "*")
	tn, _ := sp.Pkg.Scope().Lookup(recv).(*types.TypeName)
	if tn == nil {
		return nil
	}
	var t types.Type = tn.Type()
	if ptr {
		t = types.NewPointer(t)
	}
	sel := w.Prog.MethodSets.MethodSet(t).Lookup(sp.Pkg, m)
	if sel == nil {
		return nil
	}
	return w.Prog.MethodValue(sel)
}

// mustFn resolves an anchor or records an unresolved-anchor failure for the rule.
func (w *World) mustFn(rule, pkgPath, name string) *ssa.Function {
	f := w.fn(pkgPath, name)
	if f == nil || f.Blocks == nil {
		w.undecided(rule, "anchor:"+name, token.NoPos, "unresolved anchor: function "+name+" not found in "+pkgPath+" ("+w.Cfg+")")
		return nil
	}
	return f
}

func (w *World) constInt(pkgPath, name string) (int64, bool) {
	p := w.ByPath[pkgPath]
	if p == nil {
		return 0, false
	}
	c, _ := p.Types.Scope().Lookup(name).(*types.Const)
	if c == nil {
		return 0, false
	}
	v, ok := constInt64(c.Val())
	return v, ok
}

func (w *World) constStr(pkgPath, name string) (string, bool) {
	p := w.ByPath[pkgPath]
	if p == nil {
		return "", false
	}
	c, _ := p.Types.Scope().Lookup(name).(*types.Const)
	if c == nil {
		return "", false
	}
	return constString(c.Val())
}

// srcFuncs returns all source-level functions (incl. methods and anonymous functions) of a package.
func (w *World) srcFuncs(pkgPath string) []*ssa.Function {
	sp := w.SSA[pkgPath]
	if sp == nil {
		return nil
	}
	var out []*ssa.Function
	seen := map[*ssa.Function]bool{}
	var addFn func(f *ssa.Function)
	addFn = func(f *ssa.Function) {
		if f == nil || seen[f] || f.Blocks == nil {
			return
		}
		seen[f] = true
		out = append(out, f)
		for _, a := range f.AnonFuncs {
			addFn(a)
		}
	}
	for _, m := range sp.Members {
		switch m := m.(type) {
		case *ssa.Function:
			addFn(m)
		case *ssa.Type:
			for _, t := range []types.Type{m.Type(), types.NewPointer(m.Type())} {
				ms := w.Prog.MethodSets.MethodSet(t)
				for i := 0; i < ms.Len(); i++ {
					f := w.Prog.MethodValue(ms.At(i))
					if f != nil && f.Pkg == sp && f.Synthetic == "" {
						addFn(f)
					}
				}
			}
		}
	}
	sort.Slice(out, func(i, j int) bool { return out[i].Pos() < out[j].Pos() })
	return out
}

func isTestFile(w *World, p token.Pos) bool {
	f := w.Fset.Position(p).Filename
	// *_test_utils.go / rand_utils.go hold helpers that take *testing.T: test utilities compiled into the package
	return strings.HasSuffix(f, "_test.go") || strings.HasSuffix(f, "_test_utils.go") || strings.HasSuffix(f, "random/rand_utils.go")
}

func writeOut(path string, o *Out) error {
	sort.SliceStable(o.Obligations, func(i, j int) bool {
		a, b := o.Obligations[i], o.Obligations[j]
		if a.Rule != b.Rule {
			return a.Rule < b.Rule
		}
		return a.Key < b.Key
	})
	b, err := json.MarshalIndent(o, "", " ")
	if err != nil {
		return err
	}
	return os.WriteFile(path, b, 0o644)
}

// importObligations runs another property's rule function into a scratch result and re-emits, under rule `to`, its
// obligations of rule `from` that the filter accepts: one analysis, registered for every property whose statement rests on it.
func (w *World) importObligations(run func(*World), from, to string, filter func(Obl) bool) int {
	saved := w.out
	tmp := &Out{Floors: map[string]int{}, Stats: map[string]int{}}
	w.out = tmp
	run(w)
	w.out = saved
	n := 0
	for _, o := range tmp.Obligations {
		if o.Rule == from && o.Key != "floor" && (filter == nil || filter(o)) {
			o.Rule = to
			w.out.Obligations = append(w.out.Obligations, o)
			n++
		}
	}
	return n
}
