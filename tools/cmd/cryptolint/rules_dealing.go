package main

// Dealing shape (C06.R9 / C07.R13): wherever the module evaluates the secret polynomial (cgo Fr_polynomial_image*),
// the evaluation point, the slot the results go to and the recipient agree (share of participant j is P(j+1), stored /
// sent at position j, never P(0)), the points cover all participants, the degree handed to C is len(a)-1 of the
// coefficient slice whose first element is handed over, the coefficients come from the polynomial generator whose
// first and last coefficients are drawn by the non-zero sampler, and the group key is generator·a[0].
//
// This decides the *shape* of the dealer, not the arithmetic of Fr_polynomial_image (its Horner loop is checked by
// the C engine, C06.R9c).

import (
	"fmt"
	"go/token"
	"go/types"
	"strings"

	"golang.org/x/tools/go/ssa"
)

// affine: v = base + c
type affine struct {
	base ssa.Value
	c    int64
}

func affineOf(v ssa.Value) affine {
	c := int64(0)
	for i := 0; i < 12; i++ {
		v = stripConv(v)
		bo, ok := v.(*ssa.BinOp)
		if !ok {
			break
		}
		if bo.Op != token.ADD && bo.Op != token.SUB {
			break
		}
		if k, isC := constOf(bo.Y); isC {
			n, _ := constInt64(k.Value)
			if bo.Op == token.ADD {
				c += n
			} else {
				c -= n
			}
			v = bo.X
			continue
		}
		if k, isC := constOf(bo.X); isC && bo.Op == token.ADD {
			n, _ := constInt64(k.Value)
			c += n
			v = bo.Y
			continue
		}
		break
	}
	return affine{stripConv(v), c}
}

// inductionRange: φ = phi(start, φ+1) tested `φ < B` / `φ <= B` in its header (body on the true edge).
func inductionRange(ph *ssa.Phi) (start int64, bound ssa.Value, inclusive bool, ok bool) {
	if len(ph.Edges) != 2 {
		return
	}
	haveStart, haveStep := false, false
	for _, e := range ph.Edges {
		if c, isC := constOf(e); isC && c.Value != nil {
			start, _ = constInt64(c.Value)
			haveStart = true
			continue
		}
		a := affineOf(e)
		if a.base == ssa.Value(ph) && a.c == 1 {
			haveStep = true
		}
	}
	if !haveStart || !haveStep {
		return
	}
	blk := ph.Block()
	ifi, isIf := blk.Instrs[len(blk.Instrs)-1].(*ssa.If)
	if !isIf {
		// rotated `for i := range n`
		if b, okc := countedLoop(ph); okc {
			return 0, b, false, true
		}
		return
	}
	bo, isB := stripConv(ifi.Cond).(*ssa.BinOp)
	if !isB || stripConv(bo.X) != ssa.Value(ph) {
		return
	}
	switch bo.Op {
	case token.LSS:
		return start, bo.Y, false, true
	case token.LEQ:
		return start, bo.Y, true, true
	}
	return
}


// inductionSpan: the values φ takes in the loop body: first, and last = base + off (inclusive), for counted loops
// `for φ := k; φ < B` / `φ <= B`, the rotated `range n` form and the range-index form (φ = -1 …, tested as φ+1 < len).
func inductionSpan(ph *ssa.Phi) (first int64, base ssa.Value, off int64, ok bool) {
	if start, bound, incl, okr := inductionRange(ph); okr {
		ba := affineOf(bound)
		off = ba.c
		if !incl {
			off--
		}
		return start, ba.base, off, true
	}
	if len(ph.Edges) != 2 {
		return
	}
	have := false
	for _, e := range ph.Edges {
		if c, isC := constOf(e); isC && c.Value != nil {
			first, _ = constInt64(c.Value)
			have = true
		}
	}
	if !have {
		return
	}
	// header: t1 = φ + k ; if t1 < B
	blk := ph.Block()
	ifi, isIf := blk.Instrs[len(blk.Instrs)-1].(*ssa.If)
	if !isIf {
		return
	}
	bo, isB := stripConv(ifi.Cond).(*ssa.BinOp)
	if !isB || (bo.Op != token.LSS && bo.Op != token.LEQ) {
		return
	}
	xa := affineOf(bo.X)
	if xa.base != ssa.Value(ph) {
		return
	}
	// the step must be φ' = φ + 1 (possibly the same value as the tested one)
	stepOK := false
	for _, e := range ph.Edges {
		if a := affineOf(e); a.base == ssa.Value(ph) && a.c == 1 {
			stepOK = true
		}
	}
	if !stepOK {
		return
	}
	ba := affineOf(bo.Y)
	if strings.HasPrefix(blk.Comment, "rangeint") && first == 0 && xa.c == 1 {
		// rotated `for i := range N` whose body is this very block: the body has run with φ when `φ+1 < N` is tested
		// for the next round, so the last value is N-1
		off = ba.c
		if bo.Op == token.LSS {
			off--
		}
		return first, ba.base, off, true
	}
	off = ba.c - xa.c
	if bo.Op == token.LSS {
		off--
	}
	return first, ba.base, off, true
}

// lenBase: `len(S)` and the make-length of S denote the same quantity: canonical rendering of a bound for comparison
func boundKey(v ssa.Value, fn *ssa.Function) string {
	v = stripConv(v)
	if c, ok := v.(*ssa.Call); ok {
		if b, ok := c.Call.Value.(*ssa.Builtin); ok && b.Name() == "len" && len(c.Call.Args) == 1 {
			if L, ok := makeLenOf(c.Call.Args[0], fn); ok {
				a := affineOf(L)
				if a.c == 0 {
					return render(a.base)
				}
			}
		}
	}
	return render(v)
}

type imageSite struct {
	call  *ssa.Call            // the cgo call
	chain []ssa.CallInstruction // callers, innermost first: chain[0] calls call.Parent(), chain[1] calls chain[0].Parent(), …
}

func (s imageSite) outer() *ssa.Function {
	if len(s.chain) == 0 {
		return s.call.Parent()
	}
	return s.chain[len(s.chain)-1].Parent()
}

// lift: the value v of frame `level` (0 = the cgo call's function) expressed in the outermost frame where it is not
// simply a parameter (plus the accumulated constant when v is used as an integer).
func (s imageSite) lift(v ssa.Value) (ssa.Value, int64, int) {
	c := int64(0)
	level := 0
	for {
		a := affineOf(v)
		p, isP := a.base.(*ssa.Parameter)
		if !isP || level >= len(s.chain) {
			if a.c != 0 || a.base != stripConv(v) {
				// integer expression
				return a.base, c + a.c, level
			}
			return stripConv(v), c, level
		}
		idx := paramIndex(p.Parent(), p)
		cs := s.chain[level].Common()
		if idx < 0 || idx >= len(cs.Args) {
			return a.base, c + a.c, level
		}
		c += a.c
		v = cs.Args[idx]
		level++
	}
}

// liftBuf: the slice / array object behind a buffer pointer, followed through parameters along the chain.
// returnedBy: the frame hands the buffer b (a local allocation) back to its caller as a result
func returnedBy(b ssa.Value) bool {
	ins, ok := b.(ssa.Instruction)
	if !ok || ins.Parent() == nil {
		return false
	}
	if _, isMk := b.(*ssa.MakeSlice); !isMk {
		return false
	}
	for _, r := range returnsFlat(ins.Parent()) {
		for _, rv := range r.Results {
			if bufBase(stripConv(rv)) == b {
				return true
			}
		}
	}
	return false
}

func (s imageSite) liftBuf(v ssa.Value) ssa.Value {
	level := 0
	for {
		b := bufBase(stripConv(v))
		if level < len(s.chain) && returnedBy(b) {
			// built in a helper and returned: in the caller it is the call's result
			if cv, ok := s.chain[level].(ssa.Value); ok {
				v = cv
				level++
				continue
			}
		}
		p, isP := b.(*ssa.Parameter)
		if !isP || level >= len(s.chain) {
			return b
		}
		idx := paramIndex(p.Parent(), p)
		cs := s.chain[level].Common()
		if idx < 0 || idx >= len(cs.Args) {
			return b
		}
		v = cs.Args[idx]
		level++
	}
}

func (w *World) imageSites() []imageSite {
	var out []imageSite
	var up func(s imageSite, xv ssa.Value, depth int)
	up = func(s imageSite, xv ssa.Value, depth int) {
		a := affineOf(xv)
		p, isP := a.base.(*ssa.Parameter)
		if !isP || depth > 3 {
			out = append(out, s)
			return
		}
		// the frame that owns the output buffer is the dealer's frame: stop there even if the point is a parameter
		if lb := s.liftBuf(s.call.Call.Args[0]); !returnedBy(lb) {
			if _, bufIsParam := lb.(*ssa.Parameter); !bufIsParam {
				out = append(out, s)
				return
			}
		}
		fn := p.Parent()
		callers := w.callersOfCached(fn)
		if len(callers) == 0 {
			out = append(out, s)
			return
		}
		idx := paramIndex(fn, p)
		for _, cs := range callers {
			if isTestFile(w, cs.Pos()) || idx >= len(cs.Common().Args) {
				continue
			}
			ns := imageSite{call: s.call, chain: append(append([]ssa.CallInstruction{}, s.chain...), cs)}
			up(ns, cs.Common().Args[idx], depth+1)
		}
	}
	for _, fn := range w.srcFuncs(rootPath) {
		if isTestFile(w, fn.Pos()) {
			continue
		}
		for _, c := range cgoCallsFlat(fn, "") {
			n, _ := cgoName(c.Call.StaticCallee())
			if n != "Fr_polynomial_image" && n != "Fr_polynomial_image_write" {
				continue
			}
			if len(c.Call.Args) != 5 {
				continue
			}
			up(imageSite{call: c}, c.Call.Args[4], 0)
		}
	}
	return out
}

// makeLenOf: the length expression the slice value S was allocated with: a local make, or — for a field of the
// receiver — the make stored into that field in the same function.
func makeLenOf(S ssa.Value, fn *ssa.Function) (ssa.Value, bool) {
	S = stripConv(S)
	if mk, ok := S.(*ssa.MakeSlice); ok {
		return mk.Len, true
	}
	if ld, ok := S.(*ssa.UnOp); ok && ld.Op == token.MUL {
		path := render(ld.X)
		var found ssa.Value
		n := 0
		instrsFlat(fn, func(ins ssa.Instruction) {
			if st, ok := ins.(*ssa.Store); ok && render(st.Addr) == path {
				n++
				if mk, ok := stripConv(st.Val).(*ssa.MakeSlice); ok {
					found = mk.Len
				}
			}
		})
		if n == 1 && found != nil {
			return found, true
		}
	}
	return nil, false
}

func siteKey(s imageSite) string {
	k := fnKey(s.outer())
	for i := len(s.chain) - 1; i >= 0; i-- {
		k += ">" + s.chain[i].Common().StaticCallee().Name()
	}
	return k
}

func (w *World) ruleDealingShape(rule string, ownIdx *types.Var) {
	sites := w.imageSites()
	if len(sites) == 0 {
		w.undecided(rule, "anchor:polynomial-image", token.NoPos, "unresolved anchor: no call of C.Fr_polynomial_image / Fr_polynomial_image_write")
		return
	}
	seenKey := map[string]int{}
	seenDeg := map[*ssa.Call]bool{}
	for _, s := range sites {
		key := siteKey(s)
		seenKey[key]++
		if seenKey[key] > 1 {
			key = fmt.Sprintf("%s#%d", key, seenKey[key])
		}
		c := s.call
		inner := c.Parent()
		outer := s.outer()
		pos := c.Pos()
		if len(s.chain) > 0 {
			pos = s.chain[len(s.chain)-1].Pos()
		}
		// ---- degree / coefficient pairing, in the frame of the cgo call
		if seenDeg[c] {
			goto points
		}
		seenDeg[c] = true
		{
		aArg, degArg := render(c.Call.Args[2]), render(c.Call.Args[3])
		okDeg := false
		if strings.HasPrefix(aArg, "&") && strings.HasSuffix(aArg, "[0]") {
			A := strings.TrimSuffix(strings.TrimPrefix(aArg, "&"), "[0]")
			okDeg = degArg == "(len("+A+") - 1)"
		}
		w.check(okDeg, rule, fnKey(inner)+"/degree", c.Pos(), "degree handed to C is len(a)-1 of the coefficient slice whose first element is handed over",
			"the degree argument `"+degArg+"` is not len(a)-1 of the coefficient slice `"+aArg+"` handed to C: the polynomial evaluated is not the one generated (a lower degree lets fewer than t+1 shares reconstruct, a higher one reads past the slice)")
		}
	points:
		// ---- evaluation point
		xb, xc, _ := s.lift(c.Call.Args[4])
		ph, isPhi := xb.(*ssa.Phi)
		if isPhi {
			start, lbase, loff, ok := inductionSpan(ph)
			if !ok {
				w.undecided(rule, key+"/points", pos, "evaluation point is driven by a loop whose range is not recognised: "+render(ph))
				continue
			}
			w.check(start+xc == 1, rule, key+"/first-point", pos, "first evaluation point is 1",
				fmt.Sprintf("the first evaluation point is %d, not 1 (0 is the secret itself; points are participant index + 1)", start+xc))
			// slots
			type slot struct {
				what string
				v    ssa.Value
			}
			var slots []slot
			slots = append(slots, slot{"public-share", c.Call.Args[1]})
			cname, _ := cgoName(c.Call.StaticCallee())
			if cname == "Fr_polynomial_image" {
				slots = append(slots, slot{"private-share", c.Call.Args[0]})
			}
			for _, sl := range slots {
				v, _, _ := s.lift(sl.v)
				if isNilConst(v) {
					continue
				}
				ia, ok := stripConv(v).(*ssa.IndexAddr)
				if !ok {
					w.undecided(rule, key+"/"+sl.what+"-slot", pos, "result pointer is not an element of a slice: "+render(v))
					continue
				}
				ix := affineOf(ia.Index)
				okPair := ix.base == ssa.Value(ph) && xc-ix.c == 1
				w.check(okPair, rule, key+"/"+sl.what+"-slot", pos, "slot j receives the image at j+1",
					fmt.Sprintf("the %s written to slot `%s` is the image at `%s%+d`: participant j does not get P(j+1)", sl.what, render(ia.Index), render(ph), xc))
				// coverage of all slots
				if L, okL := makeLenOf(ia.X, outer); okL {
					la := affineOf(L)
					okCov := start+ix.c == 0 && loff+ix.c == la.c-1 && boundKey(lbase, outer) == render(la.base)
					w.check(okCov, rule, key+"/"+sl.what+"-coverage", pos, "the loop fills every slot 0..n-1",
						fmt.Sprintf("the loop over `%s` (from %d up to `%s%+d`) does not fill exactly the %s slots of `%s`", render(ph), start, render(lbase), loff, render(L), render(ia.X)))
				} else {
					w.undecided(rule, key+"/"+sl.what+"-coverage", pos, "allocation of the slot slice not found: "+render(ia.X))
				}
			}
			// recipient of a serialised share (Fr_polynomial_image_write): the buffer is sent to participant x-1, or
			// read back as the dealer's own share under x-1 == own index
			if cname == "Fr_polynomial_image_write" {
				base := s.liftBuf(c.Call.Args[0])
				okRcp, why := false, "no consumer of the share buffer found in the iteration"
				instrsFlat(outer, func(ins ssa.Instruction) {
					cc, ok := ins.(ssa.CallInstruction)
					if !ok || ins == ssa.Instruction(c) {
						return
					}
					com := cc.Common()
					for ai, a := range com.Args {
						if bufBase(stripConv(a)) != base {
							continue
						}
						if com.IsInvoke() && com.Method.Name() == "PrivateSend" && ai == 1 {
							d := affineOf(com.Args[0])
							if d.base == ssa.Value(ph) && xc-d.c == 1 {
								okRcp = true
							} else {
								why = fmt.Sprintf("the share P(%s%+d) is sent to participant `%s`", render(ph), xc, render(com.Args[0]))
							}
						} else if !com.IsInvoke() && com.StaticCallee() != nil && ownIdx != nil {
							// the dealer's own share: guarded by (x-1) == own index
							want := []string{}
							lhs := render(ph)
							if k := xc - 1; k < 0 {
								lhs = fmt.Sprintf("(%s - %d)", render(ph), -k)
							} else if k > 0 {
								lhs = fmt.Sprintf("(%s + %d)", render(ph), k)
							}
							for _, f := range w.factsAt(ins) {
								want = append(want, f.Expr)
								if strings.HasPrefix(f.Expr, lhs+" == ") && strings.HasSuffix(f.Expr, "."+ownIdx.Name()) {
									okRcp = true
								}
								if strings.HasSuffix(f.Expr, " == "+lhs) && strings.HasSuffix(strings.TrimSuffix(f.Expr, " == "+lhs), "."+ownIdx.Name()) {
									okRcp = true
								}
							}
							if !okRcp {
								why = "the share buffer is read back by " + com.StaticCallee().Name() + " without the guard (point-1) == own index: " + strings.Join(want, ", ")
							}
						}
					}
				})
				w.check(okRcp, rule, key+"/recipient", pos, "the share P(j+1) goes to participant j", why)
			}
			continue
		}
		// not loop-driven: the answer to a complaint — the share published for participant p is P(p+1), and p is the
		// index written into the same message
		p := xb
		w.check(xc == 1, rule, key+"/answer-point", pos, "published share of participant p is the image at p+1",
			fmt.Sprintf("the share published for `%s` is the image at `%s%+d`, not at %s+1", render(p), render(p), xc, render(p)))
		base := s.liftBuf(c.Call.Args[0])
		okIdx := false
		instrsFlat(outer, func(ins ssa.Instruction) {
			st, ok := ins.(*ssa.Store)
			if !ok {
				return
			}
			ia, ok := st.Addr.(*ssa.IndexAddr)
			if !ok || bufBase(stripConv(ia.X)) != base {
				return
			}
			if stripConv(st.Val) == p {
				okIdx = true
			}
		})
		w.check(okIdx, rule, key+"/answer-index", pos, "the message carrying the share names the same participant", "the complaint answer does not carry the index `"+render(p)+"` whose share it publishes")
	}
	w.ruleDealerOutputs(rule)
}


// bufBase: the slice / array object a pointer or sub-slice refers into.
func bufBase(v ssa.Value) ssa.Value {
	for {
		switch x := v.(type) {
		case *ssa.IndexAddr:
			v = x.X
		case *ssa.Slice:
			v = x.X
		case *ssa.ChangeType:
			v = x.X
		case *ssa.Convert:
			v = x.X
		default:
			return v
		}
	}
}

// ---------------------------------------------------------------- polynomial generator, group key, export

// zeroReporting: g(x, …) writes a field element into *x and returns whether it is zero: its result is — possibly
// through module wrappers that pass x on — the result of C.map_bytes_to_Fr applied to x.
func (w *World) zeroReporting(g *ssa.Function, depth int) bool {
	if g == nil || g.Blocks == nil || depth > 3 || len(g.Params) == 0 {
		return false
	}
	rets := returnsFlat(g)
	if len(rets) == 0 {
		return false
	}
	for _, r := range rets {
		if len(r.Results) != 1 {
			return false
		}
		v := stripConv(r.Results[0])
		c, ok := v.(*ssa.Call)
		if !ok {
			return false
		}
		callee := c.Call.StaticCallee()
		if len(c.Call.Args) == 0 || stripConv(c.Call.Args[0]) != ssa.Value(g.Params[0]) {
			return false
		}
		if n, isCgo := cgoName(callee); isCgo {
			if n != "map_bytes_to_Fr" {
				return false
			}
			continue
		}
		if !w.zeroReporting(callee, depth+1) {
			return false
		}
	}
	return true
}

// nonZeroSampler: f(x, …) loops on a zero-reporting sampler applied to x until it reports non-zero.
func (w *World) nonZeroSampler(f *ssa.Function) bool {
	if f == nil || f.Blocks == nil || len(f.Params) == 0 {
		return false
	}
	for _, b := range f.Blocks {
		for _, ins := range b.Instrs {
			ph, ok := ins.(*ssa.Phi)
			if !ok || !isBool(ph.Type()) {
				continue
			}
			okEdges, nCall := true, 0
			for _, e := range ph.Edges {
				if isConstBool(e, true) {
					continue
				}
				c, isCall := stripConv(e).(*ssa.Call)
				if !isCall || len(c.Call.Args) == 0 || stripConv(c.Call.Args[0]) != ssa.Value(f.Params[0]) || !w.zeroReporting(c.Call.StaticCallee(), 0) {
					okEdges = false
					continue
				}
				nCall++
			}
			if !okEdges || nCall == 0 {
				continue
			}
			// the loop is left only when the flag is false
			ifi, isIf := b.Instrs[len(b.Instrs)-1].(*ssa.If)
			if !isIf || ifi.Cond != ssa.Value(ph) {
				continue
			}
			exit := b.Succs[1]
			if _, isRet := exit.Instrs[len(exit.Instrs)-1].(*ssa.Return); isRet {
				return true
			}
		}
	}
	return false
}

// anySampler: g draws a field element into *x (zero-reporting sampler or non-zero sampler).
func (w *World) anySampler(g *ssa.Function) bool {
	return w.zeroReporting(g, 0) || w.nonZeroSampler(g)
}

// rulePolynomialGenerator: F(seed, k) returns make([]scalar, k+1) with every coefficient drawn by a sampler applied to
// its own slot, the first and the last by the non-zero sampler.
func (w *World) rulePolynomialGenerator(rule string, F *ssa.Function) {
	key := fnKey(F)
	var mk *ssa.MakeSlice
	for _, r := range returnsFlat(F) {
		if len(r.Results) == 0 || isNilConst(r.Results[0]) {
			continue
		}
		m, ok := stripConv(r.Results[0]).(*ssa.MakeSlice)
		if !ok {
			w.undecided(rule, key+"/coefficients", retPos(r), "the generator does not return a slice it allocated itself: "+render(r.Results[0]))
			return
		}
		mk = m
	}
	if mk == nil {
		w.undecided(rule, key+"/coefficients", F.Pos(), "no successful return found")
		return
	}
	la := affineOf(mk.Len)
	kp, isP := la.base.(*ssa.Parameter)
	w.check(isP && la.c == 1, rule, key+"/length", mk.Pos(), "degree-k polynomial has k+1 coefficients", "the coefficient slice is allocated with `"+render(mk.Len)+"` elements, not degree+1")
	if !isP {
		return
	}
	has0, hasK, hasMid := "", "", ""
	instrsFlat(F, func(ins ssa.Instruction) {
		c, ok := ins.(*ssa.Call)
		if !ok || len(c.Call.Args) == 0 {
			return
		}
		ia, ok := stripConv(c.Call.Args[0]).(*ssa.IndexAddr)
		if !ok {
			return
		}
		callee := c.Call.StaticCallee()
		// a sub-slice view a[L:H] walked entirely (`inner := a[1:degree]; for i := range inner`): slots L..H-1
		if sl, isSl := stripConv(ia.X).(*ssa.Slice); isSl && stripConv(sl.X) == ssa.Value(mk) && sl.Low != nil && sl.High != nil {
			la, ha := affineOf(sl.Low), affineOf(sl.High)
			ixa := affineOf(ia.Index)
			lk, lIsC := la.base.(*ssa.Const)
			iph, isPhi := ixa.base.(*ssa.Phi)
			if lIsC && isPhi {
				l0, _ := constInt64(lk.Value)
				l0 += la.c
				if first, lbase, loff, okS := inductionSpan(iph); okS && first+ixa.c == 0 && loff+ixa.c == -1 && lenCallOf(lbase, ia.X) {
					covers := l0 <= 1 && ha.base == ssa.Value(kp) && ha.c >= 0
					if !covers {
						hasMid = fmt.Sprintf("the middle coefficients written are the view `%s`: not all of 1..degree-1", render(ia.X))
					} else if !w.anySampler(callee) {
						hasMid = "middle coefficients are written by " + callee.Name() + ", which is not a sampler of field elements"
					} else {
						hasMid = "ok"
					}
				}
			}
			return
		}
		if stripConv(ia.X) != ssa.Value(mk) {
			return
		}
		ix := affineOf(ia.Index)
		// len(a) of the slice just made is degree+1
		if lenCallOf(ix.base, mk) {
			ix = affine{kp, ix.c + la.c}
		}
		switch b := ix.base.(type) {
		case *ssa.Const:
			n, _ := constInt64(b.Value)
			if n+ix.c == 0 {
				if w.nonZeroSampler(callee) {
					has0 = "ok"
				} else {
					has0 = "coefficient 0 is drawn by " + callee.Name() + ", which does not exclude zero (the group key could be the identity)"
				}
			}
		case *ssa.Parameter:
			if b == kp && ix.c == 0 {
				if w.nonZeroSampler(callee) {
					hasK = "ok"
				} else {
					hasK = "the leading coefficient is drawn by " + callee.Name() + ", which does not exclude zero (the polynomial's degree could be lower than the threshold)"
				}
			}
		case *ssa.Phi:
			start, lbase, last, ok := inductionSpan(b)
			if !ok {
				hasMid = "loop over the middle coefficients not recognised"
				return
			}
			covers := lbase == ssa.Value(kp) && start+ix.c <= 1 && last+ix.c >= -1
			if !covers {
				hasMid = fmt.Sprintf("the middle coefficients written are `%s` for %s from %d up to `%s%+d`: not all of 1..degree-1", render(ia.Index), render(b), start, render(lbase), last)
			} else if !w.anySampler(callee) {
				hasMid = "middle coefficients are written by " + callee.Name() + ", which is not a sampler of field elements"
			} else {
				hasMid = "ok"
			}
		}
	})
	w.check(has0 == "ok", rule, key+"/coefficient-0", F.Pos(), "a_0 drawn by the non-zero sampler", map[bool]string{true: "a_0 is never written", false: has0}[has0 == ""])
	w.check(hasK == "ok", rule, key+"/leading-coefficient", F.Pos(), "a_degree drawn by the non-zero sampler", map[bool]string{true: "the leading coefficient a[degree] is never written", false: hasK}[hasK == ""])
	w.check(hasMid == "ok", rule, key+"/middle-coefficients", F.Pos(), "a_1..a_{degree-1} each drawn by a sampler", map[bool]string{true: "the middle coefficients are never written", false: hasMid}[hasMid == ""])
}

// generatorMult: gm(res, expo) = C.G2_mult_gen*(res, expo)
func generatorMult(f *ssa.Function) bool {
	if f == nil || f.Blocks == nil || len(f.Params) != 2 {
		return false
	}
	for _, c := range cgoCallsFlat(f, "") {
		n, _ := cgoName(c.Call.StaticCallee())
		if (n == "G2_mult_gen_to_affine" || n == "G2_mult_gen") && len(c.Call.Args) == 2 &&
			stripConv(c.Call.Args[0]) == ssa.Value(f.Params[0]) && stripConv(c.Call.Args[1]) == ssa.Value(f.Params[1]) {
			return true
		}
	}
	return false
}

// ruleDealerOutputs: in each function that evaluates the polynomial in a loop: the polynomial comes from the generator
// (checked by rulePolynomialGenerator), the group key / verification vector are generator multiples of its coefficients,
// and (key generation) the exported key lists pair slot j with slot j.
func (w *World) ruleDealerOutputs(rule string) {
	seenF := map[*ssa.Function]bool{}
	seenOuter := map[*ssa.Function]bool{}
	for _, s := range w.imageSites() {
		outer := s.outer()
		xb, _, _ := s.lift(s.call.Call.Args[4])
		if _, isPhi := xb.(*ssa.Phi); !isPhi || seenOuter[outer] {
			continue
		}
		seenOuter[outer] = true
		key := fnKey(outer)
		// the coefficient slice, in the outer frame
		aBase := s.liftBuf(s.call.Call.Args[2])
		aName := render(aBase)
		// generator call in outer
		var F *ssa.Function
		var fcall *ssa.Call
		instrsFlat(outer, func(ins ssa.Instruction) {
			c, ok := ins.(*ssa.Call)
			if !ok {
				return
			}
			callee := c.Call.StaticCallee()
			if callee == nil || !inModule(callee) || callee.Blocks == nil || callee.Signature.Results().Len() < 1 {
				return
			}
			if types.Identical(callee.Signature.Results().At(0).Type(), aBase.Type()) {
				F, fcall = callee, c
			}
		})
		// the coefficients may be handed to the dealer's frame as a parameter: the generator call is then looked for in the
		// callers, whose argument at that position must be its result
		viaParam := false
		if F == nil {
			if ap, isP := aBase.(*ssa.Parameter); isP {
				idx := paramIndex(outer, ap)
				for _, cs := range w.callersOfCached(outer) {
					if isTestFile(w, cs.Pos()) || idx >= len(cs.Common().Args) {
						continue
					}
					arg := stripConv(cs.Common().Args[idx])
					if ex, ok := arg.(*ssa.Extract); ok && ex.Index == 0 {
						if c, ok := ex.Tuple.(*ssa.Call); ok && c.Call.StaticCallee() != nil && inModule(c.Call.StaticCallee()) && c.Call.StaticCallee().Blocks != nil {
							F, fcall, viaParam = c.Call.StaticCallee(), c, true
						}
					}
				}
			}
		}
		if F == nil {
			w.undecided(rule, key+"/polynomial-source", outer.Pos(), "no call of a polynomial generator returning "+aBase.Type().String()+" found in the dealer")
			continue
		}
		// A is that call's result: directly, or through the one store into the field it is loaded from
		src := fmt.Sprintf("%s#0", render(fcall))
		okSrc := aName == src || viaParam
		if !okSrc {
			if ld, ok := aBase.(*ssa.UnOp); ok && ld.Op == token.MUL {
				n := 0
				instrsFlat(outer, func(ins ssa.Instruction) {
					if st, ok := ins.(*ssa.Store); ok && render(st.Addr) == render(ld.X) {
						n++
						if render(st.Val) == src {
							okSrc = true
						}
					}
				})
				if n != 1 {
					okSrc = false
				}
			}
		}
		w.check(okSrc, rule, key+"/polynomial-source", fcall.Pos(), "the polynomial evaluated is the one the generator returned", "the coefficients evaluated (`"+aName+"`) are not the result of "+F.Name())
		if !seenF[F] {
			seenF[F] = true
			w.rulePolynomialGenerator(rule, F)
		}
		// degree argument of the generator
		var T ssa.Value
		if len(fcall.Call.Args) >= 2 {
			T = fcall.Call.Args[len(fcall.Call.Args)-1]
		}
		// generator multiples
		nGm := 0
		instrsFlat(outer, func(ins ssa.Instruction) {
			c, ok := ins.(*ssa.Call)
			if !ok || !generatorMult(c.Call.StaticCallee()) {
				return
			}
			ea, ok := stripConv(c.Call.Args[1]).(*ssa.IndexAddr)
			if !ok || render(bufBase(ea.X)) != aName {
				return
			}
			nGm++
			ei := affineOf(ea.Index)
			if k, isC := ei.base.(*ssa.Const); isC {
				n, _ := constInt64(k.Value)
				w.check(n+ei.c == 0, rule, key+"/group-key", c.Pos(), "group key = generator · a_0", fmt.Sprintf("the group key is the generator multiple of coefficient %d, not of a_0 = P(0)", n+ei.c))
				// … and it is what is returned as the group key (when the point is a local of this frame; a point kept
				// in a field of an object is followed no further)
				if _, isLocal := bufBase(stripConv(c.Call.Args[0])).(*ssa.Alloc); !isLocal {
					w.info(rule, key+"/group-key-returned", c.Pos(), "the group-key point is stored in an object ("+render(c.Call.Args[0])+"); its way to the returned key is not followed")
					return
				}
				res := render(c.Call.Args[0])
				okRet := false
				for _, r := range returnsFlat(outer) {
					for _, rv := range r.Results {
						if strings.Contains(render(rv), "("+res+")") {
							okRet = true
						}
					}
				}
				w.check(okRet, rule, key+"/group-key-returned", c.Pos(), "the returned group key is built from that point", "the point generator·a_0 (`"+res+"`) is not what the returned group key is built from")
				return
			}
			ph, isPhi := ei.base.(*ssa.Phi)
			if !isPhi {
				w.undecided(rule, key+"/verification-vector", c.Pos(), "index of the coefficient not recognised: "+render(ea.Index))
				return
			}
			ra, ok := stripConv(c.Call.Args[0]).(*ssa.IndexAddr)
			okPair := ok && affineOf(ra.Index).base == ssa.Value(ph) && affineOf(ra.Index).c == ei.c
			w.check(okPair, rule, key+"/verification-vector/pairing", c.Pos(), "A_i = generator · a_i", "element `"+render(c.Call.Args[0])+"` of the verification vector is the generator multiple of `"+render(c.Call.Args[1])+"`: positions differ")
			start, lbase, last, okR := inductionSpan(ph)
			okCov := false
			if okR && T != nil {
				ta := affineOf(T)
				okCov = start+ei.c == 0 && boundKey(lbase, outer) == render(ta.base) && last+ei.c == ta.c
				if !okCov {
					// bound written as len(vector) with the vector made of degree+1 elements
					if ok {
						if L, okL := makeLenOf(ra.X, outer); okL {
							la := affineOf(L)
							okCov = start+ei.c == 0 && boundKey(lbase, outer) == render(la.base) && last+ei.c == la.c-1 && render(la.base) == render(ta.base) && la.c == ta.c+1
						}
					}
				}
			}
			w.check(okCov, rule, key+"/verification-vector/coverage", c.Pos(), "the vector holds A_0..A_t for the degree t handed to the generator", "the verification vector does not cover exactly the coefficients 0..degree of the generated polynomial")
			if ok {
				if L, okL := makeLenOf(ra.X, outer); okL && T != nil {
					la, ta := affineOf(L), affineOf(T)
					w.check(render(la.base) == render(ta.base) && la.c == ta.c+1, rule, key+"/verification-vector/length", c.Pos(), "vector length t+1", "the verification vector is allocated with `"+render(L)+"` elements, not degree+1")
				}
			}
		})
		if nGm == 0 {
			w.viol(rule, key+"/public-polynomial", outer.Pos(), "no generator multiple of a coefficient of the generated polynomial is computed in the dealer: the group key / verification vector do not come from this polynomial")
		}
		// exported lists (key generation): results that are slices of interfaces filled in a loop from the slot slices
		for _, r := range returnsFlat(outer) {
			for ri, rv := range r.Results {
				mk, ok := stripConv(rv).(*ssa.MakeSlice)
				if !ok {
					continue
				}
				for _, ref := range *mk.Referrers() {
					ia, ok := ref.(*ssa.IndexAddr)
					if !ok {
						continue
					}
					for _, ref2 := range *ia.Referrers() {
						st, ok := ref2.(*ssa.Store)
						if !ok || st.Addr != ssa.Value(ia) {
							continue
						}
						c, ok := stripConv(st.Val).(*ssa.Call)
						if !ok || len(c.Call.Args) != 1 {
							continue
						}
						sa, ok := stripConv(c.Call.Args[0]).(*ssa.IndexAddr)
						if !ok {
							continue
						}
						di, si := affineOf(ia.Index), affineOf(sa.Index)
						okk := di.base == si.base && di.c == si.c
						w.check(okk, rule, fmt.Sprintf("%s/export#%d/pairing", key, ri), st.Pos(), "exported key j is built from slot j",
							fmt.Sprintf("exported key `%s` is built from slot `%s`: private and public shares of one participant no longer correspond", render(ia.Index), render(sa.Index)))
						if ph, isPhi := di.base.(*ssa.Phi); isPhi {
							start, lbase, last, okR := inductionSpan(ph)
							la := affineOf(mk.Len)
							okCov := okR && start+di.c == 0 && boundKey(lbase, outer) == render(la.base) && last+di.c == la.c-1
							w.check(okCov, rule, fmt.Sprintf("%s/export#%d/coverage", key, ri), st.Pos(), "every exported slot is filled", "the export loop does not fill all `"+render(mk.Len)+"` entries of the returned list")
						}
					}
				}
			}
		}
	}
}
