#!/bin/bash
# builds the checker from files on disk only (x/tools v0.50.0 from the module cache, go1.26.8)
set -e
cd "$(dirname "$0")/tools"
export PATH=/opt/veriftools/go1.26.8/bin:$PATH GOTOOLCHAIN=local GOFLAGS=-mod=mod GOPROXY=off
unset GOWORK GOSUMDB
mkdir -p ../bin ../evidence/replay
go build -o ../bin/cryptolint ./cmd/cryptolint
echo "cryptolint built"
